"""Per-property request streams (correspondence side of each check)."""
from gen import *

QUICK = "quick"


def sz(tier, q, t):
    return q if tier == QUICK else t


# ------------------------------------------------------------------ C01 field

def req_C01(r, tier):
    out = []
    pool = fe_pool(r, sz(tier, 40, 400))
    pairs = cross(r, pool, sz(tier, 250, 4000))
    for (la, a), (lb, b) in pairs:
        ha, hb = H(a), H(b)
        out.append(("fe.mul:%s*%s" % (la, lb), "fe.mul %s %s" % (ha, hb)))
        out.append(("fe.add", "fe.add %s %s" % (ha, hb)))
        out.append(("fe.sub:%s-%s" % (la, lb), "fe.sub %s %s" % (ha, hb)))
        out.append(("fe.ct_eq", "fe.ct_eq %s %s" % (ha, hb)))
    for la, a in pool:
        ha = H(a)
        for op in ("roundtrip", "neg", "square", "square2", "is_negative", "is_zero"):
            out.append(("fe.%s:%s" % (op, la), "fe.%s %s" % (op, ha)))
    for la, a in pool[:sz(tier, 30, 200)]:
        ha = H(a)
        out.append(("fe.invert:" + la, "fe.invert " + ha))
        out.append(("fe.pow_p58", "fe.pow_p58 " + ha))
        out.append(("fe.pow22501", "fe.pow22501 " + ha))
        out.append(("fe.invsqrt:" + la, "fe.invsqrt " + ha))
        for k in (1, 2, 5, 10, 50, 100):
            out.append(("fe.pow2k", "fe.pow2k %s %d" % (ha, k)))
    # sqrt_ratio_i: all four documented cases
    for i in range(sz(tier, 60, 1000)):
        u = r.choice(pool)[1] % P if i % 3 else r.below(P)
        v = r.below(P)
        cls = r.below(6)
        if cls == 0:
            u = 0
        elif cls == 1:
            v = 0
        elif cls == 2:  # square ratio
            t = r.below(P)
            u = t * t % P * v % P
        elif cls == 3:  # i * square
            t = r.below(P)
            u = t * t % P * v % P * SQRT_M1 % P
        out.append(("fe.sqrt_ratio_i:cls%d" % cls, "fe.sqrt_ratio_i %s %s" % (H(u), H(v))))
    out.append(("fe.sqrt_ratio_i:0/0", "fe.sqrt_ratio_i %s %s" % (H(0), H(0))))
    # batch invert with zeros inside
    for n in (0, 1, 2, 3, 8, 33):
        xs = [r.choice(pool)[1] for _ in range(n)]
        if n >= 3:
            xs[1] = 0
        out.append(("fe.batch_invert:n=%d" % n, "fe.batch_invert " + lst(H(x) for x in xs)))
    for i in range(sz(tier, 20, 200)):
        a, b = r.choice(pool)[1], r.choice(pool)[1]
        c = r.below(2)
        out.append(("fe.cselect", "fe.cselect %s %s %d" % (H(a), H(b), c)))
        out.append(("fe.cswap", "fe.cswap %s %s %d" % (H(a), H(b), c)))
        out.append(("fe.cassign", "fe.cassign %s %s %d" % (H(a), H(b), c)))
        out.append(("fe.cnegate", "fe.cnegate %s %d" % (H(a), c)))
    # raw limb level (translation validation + unreduced representations)
    kinds = ["max", "zero", "rand", "edge", "p", "rand", "edge"]
    # fel*  : serial backends, limbs up to the documented headroom (2^54 / b<1.75..2.5), compared limb-exactly with the
    #         translated kernels AND at value level against the python specification (checks.raw_value_ok)
    # felv* : value level on serial AND fiat; inputs inside fiat's tight (add/sub/neg) resp. loose (mul/square) bounds
    for i in range(sz(tier, 150, 5000)):
        ka, kb = r.choice(kinds), r.choice(kinds)
        a, b = limbs51(r, 54, ka), limbs51(r, 54, kb)
        for op in ("mul", "sub"):
            out.append(("fel51.%s:%s,%s" % (op, ka, kb), "fel51.%s %s %s" % (op, ilst(a), ilst(b))))
        a2, b2 = limbs51(r, 53, ka), limbs51(r, 53, kb)
        out.append(("fel51.add", "fel51.add %s %s" % (ilst(a2), ilst(b2))))
        for op in ("neg", "square", "square2", "as_bytes"):
            out.append(("fel51.%s:%s" % (op, ka), "fel51.%s %s" % (op, ilst(a))))
        out.append(("fel51.pow2k", "fel51.pow2k %s %d" % (ilst(a), 1 + r.below(4))))
        tl = [min(x, (1 << 51) + (1 << 47)) for x in limbs51(r, 52, ka)]
        tb = [min(x, (1 << 51) + (1 << 47)) for x in limbs51(r, 52, kb)]
        for op in ("add", "sub"):
            out.append(("felv51.%s:%s" % (op, ka), "felv51.%s %s %s" % (op, ilst(tl), ilst(tb))))
        out.append(("felv51.neg", "felv51.neg %s" % ilst(tl)))
        out.append(("felv51.as_bytes", "felv51.as_bytes %s" % ilst(tl)))
        la_, lb_ = limbs51(r, 52, ka), limbs51(r, 52, kb)
        out.append(("felv51.mul:%s,%s" % (ka, kb), "felv51.mul %s %s" % (ilst(la_), ilst(lb_))))
        out.append(("felv51.square", "felv51.square %s" % ilst(la_)))
        out.append(("felv51.square2", "felv51.square2 %s" % ilst(la_)))
        out.append(("felv51.pow2k", "felv51.pow2k %s %d" % (ilst(la_), 1 + r.below(4))))
        a, b = limbs26(r, 5.65, ka), limbs26(r, 3.36, kb)
        out.append(("fel26.mul:%s,%s" % (ka, kb), "fel26.mul %s %s" % (ilst(a), ilst(b))))
        for op in ("square", "square2"):
            out.append(("fel26.%s:%s" % (op, kb), "fel26.%s %s" % (op, ilst(b))))
        out.append(("fel26.pow2k", "fel26.pow2k %s %d" % (ilst(b), 1 + r.below(4))))
        a, b = limbs26(r, 4.0, ka), limbs26(r, 4.0, kb)
        out.append(("fel26.sub:%s,%s" % (ka, kb), "fel26.sub %s %s" % (ilst(a), ilst(b))))
        for op in ("neg", "as_bytes"):
            out.append(("fel26.%s:%s" % (op, ka), "fel26.%s %s" % (op, ilst(a))))
        a, b = limbs26(r, 2.0, ka), limbs26(r, 2.0, kb)
        out.append(("fel26.add", "fel26.add %s %s" % (ilst(a), ilst(b))))
        tl, tb = limbs26(r, 1.05, ka), limbs26(r, 1.05, kb)
        for op in ("add", "sub"):
            out.append(("felv26.%s" % op, "felv26.%s %s %s" % (op, ilst(tl), ilst(tb))))
        out.append(("felv26.neg", "felv26.neg %s" % ilst(tl)))
        out.append(("felv26.as_bytes", "felv26.as_bytes %s" % ilst(tl)))
        la_, lb_ = limbs26(r, 2.0, ka), limbs26(r, 2.0, kb)
        out.append(("felv26.mul", "felv26.mul %s %s" % (ilst(la_), ilst(lb_))))
        out.append(("felv26.square", "felv26.square %s" % ilst(la_)))
        out.append(("felv26.square2", "felv26.square2 %s" % ilst(la_)))
    for la, a in pool:
        out.append(("fel51.from_bytes:" + la, "fel51.from_bytes " + H(a)))
        out.append(("fel26.from_bytes:" + la, "fel26.from_bytes " + H(a)))
    # vector lanes
    for A in ("avx2", "ifma"):
        for i in range(sz(tier, 40, 1500)):
            xs = [H(r.choice(pool)[1]) for _ in range(8)]
            out.append(("vfe.%s.mul" % A, "vfe.%s.mul %s" % (A, " ".join(xs))))
            out.append(("vfe.%s.add" % A, "vfe.%s.add %s" % (A, " ".join(xs))))
            out.append(("vfe.%s.sub" % A, "vfe.%s.sub %s" % (A, " ".join(xs))))
            for op in ("roundtrip", "square", "neg", "reduce", "diff_sum"):
                out.append(("vfe.%s.%s" % (A, op), "vfe.%s.%s %s" % (A, op, " ".join(xs[:4]))))
            out.append(("vfe.%s.shuffle" % A, "vfe.%s.shuffle %s %d" % (A, " ".join(xs[:4]), r.below(9))))
            out.append(("vfe.%s.blend" % A, "vfe.%s.blend %s %d" % (A, " ".join(xs), r.below(8))))
            ks = [r.choice([0, 1, 121666, 121665, (1 << 32) - 1, r.below(1 << 32)]) for _ in range(4)]
            out.append(("vfe.%s.mul_consts" % A, "vfe.%s.mul_consts %s %s" % (A, " ".join(xs[:4]), " ".join(map(str, ks)))))
            out.append(("vfe.%s.cselect" % A, "vfe.%s.cselect %s %d" % (A, " ".join(xs), r.below(2))))
    return out


# ------------------------------------------------------------------ C02 scalars

def req_C02(r, tier):
    out = []
    pool = sc_pool(r, sz(tier, 40, 400))
    for ls, s in pool:
        out.append(("sc.reduce:" + ls, "sc.reduce " + H(s)))
        out.append(("sc.canonical:" + ls, "sc.canonical " + H(s)))
        out.append(("sc.neg", "sc.neg " + H(s)))
        if s % L != 0:
            out.append(("sc.invert", "sc.invert " + H(s)))
        out.append(("scl52.from_bytes", "scl52.from_bytes " + H(s)))
        out.append(("scl29.from_bytes", "scl29.from_bytes " + H(s)))
    for (la, a), (lb, b) in cross(r, pool, sz(tier, 200, 3000)):
        for op in ("add", "sub", "mul"):
            out.append(("sc.%s:%s,%s" % (op, la, lb), "sc.%s %s %s" % (op, H(a), H(b))))
    wides = [0, 1, L, L - 1, (1 << 512) - 1, (1 << 256), (1 << 256) - 1, L << 256, (L << 256) - 1, L * L, L * L - 1, (1 << 260) % L, 1 << 260, 1 << 511, ((1 << 512) - 1) // L * L]
    for w in wides:
        out.append(("sc.reduce_wide:fixed", "sc.reduce_wide " + H(w, 64)))
        out.append(("scl52.from_bytes_wide", "scl52.from_bytes_wide " + H(w, 64)))
        out.append(("scl29.from_bytes_wide", "scl29.from_bytes_wide " + H(w, 64)))
    for i in range(sz(tier, 60, 2000)):
        w = r.below(1 << 512) if i % 2 else (r.choice(pool)[1] << 256) | r.choice(pool)[1]
        out.append(("sc.reduce_wide:rand", "sc.reduce_wide " + H(w, 64)))
        out.append(("scl52.from_bytes_wide", "scl52.from_bytes_wide " + H(w, 64)))
    for n in (0, 1, 2, 3, 5, 17, sz(tier, 40, 300)):
        xs = [(r.choice(pool)[1] % L) or 1 for _ in range(n)]
        out.append(("sc.batch_invert:n=%d" % n, "sc.batch_invert " + lst(H(x) for x in xs)))
        xs = [r.choice(pool)[1] for _ in range(n)]
        out.append(("sc.sum:n=%d" % n, "sc.sum " + lst(H(x) for x in xs)))
        out.append(("sc.product:n=%d" % n, "sc.product " + lst(H(x) for x in xs)))
    for bits in (8, 16, 32, 64, 128):
        for v in (0, 1, (1 << bits) - 1, 1 << (bits - 1), r.below(1 << bits)):
            out.append(("sc.from_u%d" % bits, "sc.from_u %d %d" % (bits, v)))
    for i in range(sz(tier, 10, 200)):
        m = r.bytes(r.below(200))
        out.append(("sc.from_hash", "sc.from_hash " + hx(m)))
    out.append(("sc.from_hash:empty", "sc.from_hash -"))
    # raw unpacked ops on reduced inputs
    def l52(x):
        return ilst([(x >> (52 * i)) & ((1 << 52) - 1) for i in range(5)])

    def l29(x):
        return ilst([(x >> (29 * i)) & ((1 << 29) - 1) for i in range(9)])
    for i in range(sz(tier, 120, 4000)):
        a, b = r.choice(pool)[1] % L, r.choice(pool)[1] % L
        if i % 7 == 0:
            a, b = L - 1, L - 1
        if i % 11 == 0:
            a, b = 0, L - 1
        for W, f in (("52", l52), ("29", l29)):
            for op in ("add", "sub", "mul", "mul_internal", "montgomery_mul"):
                out.append(("scl%s.%s" % (W, op), "scl%s.%s %s %s" % (W, op, f(a), f(b))))
            for op in ("square", "square_internal", "montgomery_square", "as_montgomery", "from_montgomery", "as_bytes"):
                out.append(("scl%s.%s" % (W, op), "scl%s.%s %s" % (W, op, f(a))))
            if a != 0 and i % 10 == 0:
                out.append(("scl%s.invert" % W, "scl%s.invert %s" % (W, f(a))))
                out.append(("scl%s.montgomery_invert" % W, "scl%s.montgomery_invert %s" % (W, f(a))))
    return out


# ------------------------------------------------------------------ C03 Edwards points

def seq_prog(r, pts, n_ops):
    """random register program over decompressed points; returns PROGRAM string"""
    ins = []
    k = 1 + r.below(min(4, len(pts)))
    for i in range(k):
        lab, b = r.choice(pts)
        c = r.below(12)
        if c == 0:
            ins.append("I")
        elif c == 1:
            ins.append("G")
        elif c == 2:
            ins.append("T%d" % r.below(8))
        else:
            ins.append("D" + b.hex())
    npts = list(range(len(ins)))  # indices of point registers
    for _ in range(n_ops):
        c = r.below(14)
        i, j = r.choice(npts), r.choice(npts)
        if c <= 2:
            ins.append("A%d,%d" % (i, j))
        elif c <= 4:
            ins.append("S%d,%d" % (i, j))
        elif c == 5:
            ins.append("N%d" % i)
        elif c == 6:
            ins.append("B%d" % i)
        elif c == 7:
            ins.append("M%d,%s" % (i, H(r.choice([0, 1, 2, 8, L, L - 1, r.below(L), r.below(1 << 256)]))))
        elif c == 8:
            ins.append("C%d" % i)
        elif c == 9:
            ins.append("P%d,%d" % (i, 1 + r.below(6)))
        elif c == 10:
            ins.append("U" + ",".join(str(r.choice(npts)) for _ in range(r.below(5))))
        elif c == 11:
            ins.append("R%d,%s" % (i, H(r.below(1 << 255))))
        elif c == 12:
            ins.append("S%d,%d" % (i, i))
        else:
            ins.append("A%d,%d" % (i, i))
        npts.append(len(ins) - 1)
    # predicates on the last few registers
    last = npts[-1]
    for q in (last, r.choice(npts)):
        ins.append("Z%d" % q)
        ins.append("O%d" % q)
        ins.append("F%d" % q)
        ins.append("V%d" % q)
        ins.append("E%d,%d" % (q, r.choice(npts)))
    return ";".join(ins)


def req_C03(r, tier):
    out = []
    pts = point_pool(r, sz(tier, 30, 300))
    for lab, b in pts:
        out.append(("ed.decompress:" + lab, "ed.decompress " + b.hex()))
    for lab, b in bad_point_encodings(r, sz(tier, 30, 300)):
        out.append(("ed.decompress:" + lab, "ed.decompress " + b.hex()))
    for i in range(sz(tier, 200, 3000)):
        y = r.below(1 << 256)
        out.append(("ed.decompress:rand", "ed.decompress " + H(y)))
    # every y in [p-3, p+20) x sign
    for y in list(range(P - 3, P + 20)) + [0, 1, 2, M255]:
        for s in (0, 1):
            out.append(("ed.decompress:edge_y", "ed.decompress " + H((y & M255) | (s << 255))))
    for i in range(sz(tier, 80, 1500)):
        n = r.choice([1, 2, 3, 8, 20, sz(tier, 40, 200)])
        out.append(("ed.seq:len%d" % n, "ed.seq " + seq_prog(r, pts, n)))
    for i in range(sz(tier, 40, 600)):
        n = r.choice([1, 2, 5, 12])
        prog = seq_prog(r, pts, n)
        # strip predicate instructions for coords (all point registers)
        prog = ";".join(x for x in prog.split(";") if x[0] not in "ZOFVE")
        out.append(("ed.coords", "ed.coords " + prog))
    # exceptional pairs: P + (-P), P + T, P + P, T + T'
    for lab, b in pts[:sz(tier, 20, 60)]:
        for t in range(8):
            out.append(("ed.seq:P+T", "ed.seq D%s;T%d;A0,1;S0,1;A2,1;E2,0;O2;F2;F0;O0" % (b.hex(), t)))
        out.append(("ed.seq:P-P", "ed.seq D%s;N0;A0,1;Z2;S0,0;Z4;B0;A0,0;E6,7;C0;P0,3;E9,10" % b.hex()))
    for lab, b in pts:
        out.append(("ed.to_montgomery:" + lab, "ed.to_montgomery " + b.hex()))
    for n in range(0, 70, 1 if tier != QUICK else 7):
        out.append(("ed.from_slice:len%d" % n, "ed.from_slice " + hx(r.bytes(n))))
    out.append(("ed.from_slice:len32", "ed.from_slice " + hx(r.bytes(32))))
    return out


# ------------------------------------------------------------------ C04 scalar multiplication

def single_digit_scalars():
    """radix-16 scalars with exactly one non-zero digit, all positions and values (one per table entry)"""
    res = []
    for i in range(64):
        for d in range(1, 16):
            v = d << (4 * i)
            if v < (1 << 255):
                res.append(v)
    return res


def req_C04(r, tier):
    out = []
    spool = sc_pool(r, sz(tier, 30, 300))
    pts = point_pool(r, sz(tier, 12, 100))
    goodpts = [p for p in pts if not p[0].startswith("noncanon")]
    # recodings on raw (<2^255) scalars
    for ls, s in spool:
        s = raw255(s)
        out.append(("sc.radix16_raw:" + ls, "sc.radix16_raw " + H(s)))
        for w in (4, 5, 6, 7, 8):
            out.append(("sc.radix2w_raw:w%d" % w, "sc.radix2w_raw %s %d" % (H(s), w)))
        for w in (2, 5, 6, 7, 8):
            out.append(("sc.naf_raw:w%d" % w, "sc.naf_raw %s %d" % (H(s), w)))
        out.append(("sc.bits_le_raw", "sc.bits_le_raw " + H(s)))
    # NAF windows straddling u64 words
    for i in range(sz(tier, 40, 800)):
        pos = r.choice([59, 60, 61, 62, 63, 64, 123, 124, 125, 126, 127, 128, 187, 188, 190, 191, 192, 247, 250, 251, 252, 253, 254])
        v = (r.below(1 << 12) | 1) << pos
        v |= r.below(1 << 255) if r.below(2) else 0
        v &= M255
        for w in (5, 8):
            out.append(("sc.naf_raw:straddle", "sc.naf_raw %s %d" % (H(v), w)))
        for w in (5, 6, 7, 8):
            out.append(("sc.radix2w_raw:straddle", "sc.radix2w_raw %s %d" % (H(v), w)))
        out.append(("sc.radix16_raw:straddle", "sc.radix16_raw " + H(v)))
    sd = single_digit_scalars()
    step = 1 if tier != QUICK else 9
    for v in sd[::step]:
        out.append(("ed.mul_base_raw:single_digit", "ed.mul_base_raw " + H(v)))
        if v < L:
            out.append(("ed.basepoint_table:single_digit", "ed.basepoint_table " + H(v)))
    # odd multiples for NAF tables: scalar d at position 0, d odd < 128 ; and combos a*A + b*B
    for d in range(1, 256, 2 if tier != QUICK else 14):
        for sign in (1, -1):
            b = (sign * d) % L
            out.append(("ed.double_base:oddB", "ed.double_base %s %s %s" % (H(0), compress(B).hex(), H(b))))
            out.append(("ed.double_base:oddA", "ed.double_base %s %s %s" % (H(b), r.choice(goodpts)[1].hex(), H(0))))
            for c in ("serial", "avx2", "ifma"):
                out.append(("ed.direct.%s.double_base" % c, "ed.direct.%s.double_base %s %s %s" % (c, H(b), r.choice(goodpts)[1].hex(), H(b))))
    for x in range(-8, 9):
        for lab, b in goodpts[:6]:
            out.append(("ed.select:%d" % x, "ed.select %s %d" % (b.hex(), x)))
            out.append(("ed.select_affine", "ed.select_affine %s %d" % (b.hex(), x)))
    for i in range(sz(tier, 60, 1500)):
        ls, s = r.choice(spool)
        lp, p = r.choice(goodpts)
        out.append(("ed.mul_raw:%s" % ls, "ed.mul_raw %s %s" % (p.hex(), H(raw255(s)))))
        out.append(("ed.mul_base:%s" % ls, "ed.mul_base " + H(s)))
        out.append(("ed.mul_base_raw", "ed.mul_base_raw " + H(raw255(s))))
        out.append(("ed.basepoint_table", "ed.basepoint_table " + H(s)))
        out.append(("ed.mul_base_clamped", "ed.mul_base_clamped " + H(s)))
        out.append(("ed.mul_clamped", "ed.mul_clamped %s %s" % (p.hex(), H(s))))
        out.append(("mont.mul_raw", "mont.mul_raw %s %s" % (H(to_mont(decompress(p))), H(raw255(s)))))
        out.append(("mont.mul_base", "mont.mul_base " + H(s)))
        out.append(("ris.mul_base", "ris.mul_base " + H(s)))
        out.append(("ris.table", "ris.table " + H(s)))
        a, b2 = r.choice(spool)[1], r.choice(spool)[1]
        out.append(("ed.double_base", "ed.double_base %s %s %s" % (H(a), p.hex(), H(b2))))
        out.append(("ed.double_base_raw", "ed.double_base_raw %s %s %s" % (H(raw255(a)), p.hex(), H(raw255(b2)))))
        for c in ("serial", "avx2", "ifma"):
            out.append(("ed.direct.%s.mul" % c, "ed.direct.%s.mul %s %s" % (c, p.hex(), H(raw255(s)))))
    for radix in (16, 32, 64, 128, 256):
        for i in range(sz(tier, 6, 80)):
            ls, s = r.choice(spool)
            lp, p = r.choice(goodpts)
            s2 = s % L
            out.append(("ed.table:r%d" % radix, "ed.table %d %s %s" % (radix, p.hex(), H(s2))))
        out.append(("ed.table:r%d:l-1" % radix, "ed.table %d %s %s" % (radix, compress(B).hex(), H(L - 1))))
        out.append(("ed.table:r%d:0" % radix, "ed.table %d %s %s" % (radix, compress(B).hex(), H(0))))
    for i in range(sz(tier, 6, 60)):
        out.append(("ed.table_raw:16", "ed.table_raw 16 %s %s" % (r.choice(goodpts)[1].hex(), H(raw255(r.choice(spool)[1])))))
    # multiscalar: all size regimes
    sizes = [0, 1, 2, 3, 7, 8, 9, 33] + (sz(tier, [189, 190, 191], [94, 95, 96, 189, 190, 191, 499, 500, 501, 799, 800, 801]))
    cache = {}

    def rand_pt():
        k = r.below(400)
        if k not in cache:
            q = smul(k + 1, B)
            if k % 5 == 0:
                q = add(q, T8[1 + k % 7])
            cache[k] = compress(q).hex()
        return cache[k]
    for n in sizes:
        reps = 1 if n > 100 else sz(tier, 3, 10)
        for _ in range(reps):
            ss = [H(r.choice(spool)[1] if r.below(3) else r.below(L)) for _ in range(n)]
            ps = [rand_pt() for _ in range(n)]
            out.append(("ed.msm_vt:n=%d" % n, "ed.msm_vt %s %s" % (lst(ss), lst(ps))))
            if n <= 200:
                out.append(("ed.msm_ct:n=%d" % n, "ed.msm_ct %s %s" % (lst(ss), lst(ps))))
                out.append(("ris.msm_ct", "ris.msm_ct %s %s" % (lst(ss), lst(compress_ris_safe(p) for p in ps))))
            out.append(("ed.msm_opt:n=%d" % n, "ed.msm_opt %s %s" % (lst(ss), lst(ps))))
            if n > 0:
                ps2 = list(ps)
                ps2[r.below(n)] = "~"
                out.append(("ed.msm_opt:none", "ed.msm_opt %s %s" % (lst(ss), lst(ps2))))
            for c in ("serial", "avx2", "ifma"):
                if n <= 200:
                    out.append(("ed.direct.%s.straus_ct:n=%d" % (c, n), "ed.direct.%s.straus_ct %s %s" % (c, lst(ss), lst(ps))))
                    out.append(("ed.direct.%s.straus_vt:n=%d" % (c, n), "ed.direct.%s.straus_vt %s %s" % (c, lst(ss), lst(ps))))
                out.append(("ed.direct.%s.pippenger:n=%d" % (c, n), "ed.direct.%s.pippenger %s %s" % (c, lst(ss), lst(ps))))
            # precomputed: split into static / dynamic
            k = r.below(n + 1)
            st_s = ss[:k][: r.below(k + 1)] if r.below(2) else ss[:k]
            out.append(("ed.msm_pre:n=%d" % n, "ed.msm_pre %s %s %s %s" % (lst(st_s), lst(ps[:k]), lst(ss[k:]), lst(ps[k:]))))
            for c in ("serial", "avx2", "ifma"):
                out.append(("ed.direct.%s.pre" % c, "ed.direct.%s.pre %s %s %s %s" % (c, lst(st_s), lst(ps[:k]), lst(ss[k:]), lst(ps[k:]))))
    # ladder on arbitrary bit strings
    for i in range(sz(tier, 30, 400)):
        nb = r.choice([0, 1, 2, 7, 64, 255, 256, 300])
        bits = bytes(r.below(2) for _ in range(nb))
        u = r.choice([0, 1, 9, P - 1, r.below(P), r.below(1 << 256)])
        out.append(("mont.mul_bits_be:n=%d" % nb, "mont.mul_bits_be %s %s" % (H(u), hx(bits))))
    return out


def compress_ris_safe(phex):
    # ris.* take CompressedRistretto; reuse even Edwards multiples of B: caller replaces. Placeholder: basepoint
    return RIS_B


RIS_B = "e2f2ae0a6abc4e71a884a961c500515f58e30b6aa582dd8db6a65945e08d2d76"

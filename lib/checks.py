"""Property registry and the generic check procedure."""
import os, sys, json, time, re, hashlib
from common import *
import pyref, props, special
from pyref import SplitMix64

TRUSTED = [
    "Lean 4 kernel (re-checked with leanchecker in the thorough tier)",
    "axioms propext, Classical.choice, Quot.sound only (audited per theorem by tools/Audit.lean)",
    "definitions in lean/Dalek/IR (semantics of the translated IR) and lean/Dalek/Spec (what the theorems mean)",
    "rs2lean translator + tools/GenNorm.lean: untrusted for proofs about Gen/*, tied to /repo by regeneration on every run and by limb-exact differential execution against the hooks",
    "Rust harness (harness/src) and hook module curve25519-dalek/src/verif_hooks.rs (add-only accessors)",
    "rustc/LLVM and the CPU: theorems are about source-level semantics",
]


class Ctx:
    def __init__(self, pid, tier, seed, t0):
        self.pid, self.tier, self.seed, self.t0 = pid, tier, seed, t0
        self.cov = {"obligations": 0, "discharged": 0, "checker_cmd": "", "trusted_base": TRUSTED,
                    "evaluations": 0, "distinct_nontrivial": 0, "rule": "", "samples": []}
        self.assumptions = []
        self.notes = []

    def finish(self, violations, note=None):
        if note:
            self.notes.append(note)
        self.cov["notes"] = self.notes
        if self.cov["obligations"] == 0:
            # schema: proof level needs >=1; fall back to generic counters being present
            self.cov.pop("obligations"); self.cov.pop("discharged")
        write_evidence(self.pid, self.tier, self.seed, self.t0, self.cov, self.assumptions, violations)


# property -> configuration
def P(lean_mods, cfgs_quick, cfgs_thorough, req, profiles=("release",), legacy=False, extra=None, gen_items=()):
    return dict(lean=lean_mods, cq=cfgs_quick, ct=cfgs_thorough, req=req, profiles=profiles, legacy=legacy, extra=extra,
                gen_items=gen_items)


ALL6 = ALL_BACKENDS
ALL12 = ALL6 + [c + "-notables" for c in ALL6]

REGISTRY = {}


def register():
    R = REGISTRY
    R["C01"] = P(["Dalek.Props.C01"], ALL6, ALL6, props.req_C01)
    R["C02"] = P(["Dalek.Props.C02"], ["serial64", "serial32", "simd"], ALL6, props.req_C02)
    R["C03"] = P(["Dalek.Props.C03"], ["serial64", "serial32", "simd", "avx512"], ALL6, props.req_C03)
    R["C04"] = P(["Dalek.Props.C04"], ["serial64", "serial32", "simd", "avx512", "simd-notables", "serial64-notables"], ALL12, props.req_C04)
    R["C11"] = P(["Dalek.Props.C11"], ALL6, ALL6, props.req_C11, profiles=("checked", "release"))
    R["C05"] = P(["Dalek.Props.C05"], ALL12, ALL12, props.req_C05)
    R["C06"] = P(["Dalek.Props.C06"], ["serial64", "serial32", "simd", "avx512"], ALL6, props.req_C06)
    R["C07"] = P(["Dalek.Props.C07"], ["serial64", "serial32", "simd", "avx512"], ALL6, props.req_C07)
    R["C08"] = P(["Dalek.Props.C08"], ["serial64", "simd", "simd-notables"], ALL6 + ["simd-notables"], props.req_C08)
    R["C09"] = P(["Dalek.Props.C09"], ["serial64", "simd", "avx512"], ALL6, props.req_C09, legacy=True)
    R["C10"] = P(["Dalek.Props.C10"], ["serial64"], ["serial64"], props.req_C10, extra=special.extra_C10)
    R["C12"] = P(["Dalek.Props.C12"], ALL6, ALL12, props.req_C12)
    R["C13"] = P(["Dalek.Props.C13"], ["serial64", "simd", "avx512"], ALL6, props.req_C13)
    R["C14"] = P(["Dalek.Props.C14"], ["serial64"], ["serial64"], props.req_C14, extra=special.extra_C14)
    R["C15"] = P(["Dalek.Props.C15"], ["serial64", "serial32", "simd", "avx512"], ALL6, props.req_C15, profiles=("checked", "release"))
    R["C16"] = P(["Dalek.Props.C16"], ["serial64", "simd"], ALL6, props.req_C16)
    R["C17"] = P(["Dalek.Props.C17"], ["serial64", "serial32", "simd"], ALL6, props.req_C17)


register()


# ------------------------------------------------------------------ comparison

def field_eq_mod_p(a_hex, b_int):
    return int.from_bytes(bytes.fromhex(a_hex), "little") % pyref.P == b_int % pyref.P


def coords_ok(dr, mo):
    """driver: ok X Y Z T ; model: ok cx cy.  Check X = cx Z, Y = cy Z, XY = ZT, Z != 0."""
    if not dr.startswith("ok ") or not mo.startswith("ok "):
        return dr == mo
    try:
        X, Y, Z, T = [int.from_bytes(bytes.fromhex(h), "little") for h in dr.split()[1:5]]
        cx, cy = [int.from_bytes(bytes.fromhex(h), "little") for h in mo.split()[1:3]]
    except Exception:
        return False
    p = pyref.P
    return Z % p != 0 and (X - cx * Z) % p == 0 and (Y - cy * Z) % p == 0 and (X * Y - Z * T) % p == 0 and pyref.on_curve(cx, cy)


def _val(limbs, W):
    if W == 51:
        return sum(x << (51 * i) for i, x in enumerate(limbs))
    return sum(x << ((51 * i + 1) // 2) for i, x in enumerate(limbs))


def raw_value_ok(line, dr):
    """value-level check of a raw-limb field op against the specification (python big ints)"""
    f = line.split(" ")
    fam, op = f[0].split(".")
    W = 51 if fam in ("fel51", "felF51") else 26
    if not dr.startswith("ok "):
        return True
    p = pyref.P
    try:
        ins = [[int(x) for x in a.split(",")] for a in f[1:] if "," in a]
        if op in ("add", "sub", "mul"):
            a, b = _val(ins[0], W), _val(ins[1], W)
            exp = {"add": a + b, "sub": a - b, "mul": a * b}[op]
        elif op == "neg":
            exp = -_val(ins[0], W)
        elif op == "square":
            exp = _val(ins[0], W) ** 2
        elif op == "square2":
            exp = 2 * _val(ins[0], W) ** 2
        elif op == "pow2k":
            exp = pow(_val(ins[0], W), 2 ** int(f[2]), p)
        elif op == "as_bytes":
            return int.from_bytes(bytes.fromhex(dr.split()[1]), "little") == _val(ins[0], W) % p
        elif op == "from_bytes":
            got = _val([int(x) for x in dr.split()[1].split(",")], W)
            return got == int.from_bytes(bytes.fromhex(f[1]), "little") % (1 << 255)
        else:
            return True
        got = _val([int(x) for x in dr.split()[1].split(",")], W)
        return (got - exp) % p == 0
    except Exception:
        return False


def same(op, dr, mo, line=None):
    if op == "ed.coords":
        return coords_ok(dr, mo)
    if dr != mo:
        return False
    if line is not None and op.split(".")[0] in ("fel51", "fel26", "felF51", "felF26"):
        return raw_value_ok(line, dr)
    return True


FIAT_TIGHT51 = (1 << 51) + (1 << 47)   # fiat-crypto's tight bound for 51-bit limbs is ~1.1 * 2^51


def admissible(cfg, line):
    """is this request inside the documented input contract of the backend behind `cfg`?  (fiat's field type only
    admits tight limbs as point coordinates; the serial and vector backends admit more headroom)"""
    if cfg.startswith("fiat") and (line.startswith("ed.mul_raw_limbs ") or ".mul_limbs " in line):
        try:
            for a in line.split(" ")[1:5]:
                if any(int(x) > FIAT_TIGHT51 for x in a.split(",")):
                    return False
        except ValueError:
            return True
    return True


def compare(reqs, outs_by_cfg, model_out):
    """returns list of mismatches (idx, cfg, driver_out, model_out) and stats"""
    mism = []
    evals = 0
    for cfg, outs in outs_by_cfg.items():
        for i, (lab, line) in enumerate(reqs):
            d, m = outs[i], model_out[i]
            if d == "skip" or m == "skip" or not admissible(cfg, line):
                continue
            evals += 1
            if not same(line.split(" ", 1)[0], d, m, line):
                mism.append((i, cfg, d, m))
    return mism, evals


def known_match(pid, line, cfg):
    for k in load_known():
        if k.get("property") != pid or k.get("status") == "fixed":
            continue
        if re.search(k["match"], line):
            return k
    return None


# ------------------------------------------------------------------ the generic procedure

def lean_stage(ctx, mods):
    """regenerate + build + audit.  Returns (ok, message)."""
    problems = []
    try:
        man = regen()
        failed = [it for it in man.get("items", []) if it.get("status") != "ok"]
        for it in failed:
            problems.append("translation failed: %s.%s: %s" % (it.get("module"), it.get("name"), it.get("message")))
        ctx.cov["translated_items"] = len(man.get("items", [])) - len(failed)
        ctx.cov["gen_hash"] = hashlib.sha256(json.dumps([(it.get("module"), it.get("name"), it.get("sha256")) for it in man.get("items", [])]).encode()).hexdigest()[:16]
    except Exception as e:
        problems.append("translator: %r" % (e,))
    ok, outp, dt = lake_build(mods + ["dalek-model"])
    ctx.cov["lake_build_s"] = round(dt, 1)
    if not ok:
        errs = [l for l in outp.splitlines() if "error" in l][:12]
        problems.append("lake build failed: " + " | ".join(errs))
        # the model executable may still be buildable (proofs broke, model did not)
        ok2, outp2, dt2 = lake_build(["dalek-model"])
        if not ok2:
            problems.append("model executable does not build")
        return False, problems
    thms = {}
    for m in mods:
        thms.update(audit_module(m))
    thms = {k: v for k, v in thms.items() if not re.search(r"\.(eq_\d+|eq_def|sizeOf_spec|injEq|inj|match_\d+.*|proof_\d+|congr_simp)$", k)}
    bad = {k: v for k, v in thms.items() if not set(v) <= STD_AXIOMS}
    ctx.cov["obligations"] = len(thms)
    ctx.cov["discharged"] = len(thms) - len(bad)
    ctx.cov["theorems"] = sorted(thms)[:400]
    ctx.cov["checker_cmd"] = "cd /verif/lean && lake build %s && lake env lean --run ../tools/Audit.lean %s" % (" ".join(mods), " ".join(mods))
    for k, v in bad.items():
        problems.append("theorem %s depends on non-standard axioms %s" % (k, v))
    hits = grep_forbidden(import_closure(mods) + [os.path.join(VERIF, "tools", "GenNorm.lean")])
    for h in hits:
        problems.append("forbidden construct: " + h)
    if ctx.tier != "quick":
        # translator self-check: the generated IR evaluated in Python against independent big-integer oracles
        rc, o, e, dt = run([sys.executable, os.path.join(VERIF, "tools", "rs2lean", "selfcheck.py"), "--n", "400", "--n-alg", "200", "--n-vec", "200",
                            "--seed", str(ctx.seed)], timeout=3600)
        ctx.cov["translator_selfcheck"] = {"rc": rc, "wall_s": round(dt, 1), "tail": (o + e)[-300:]}
        if rc != 0:
            problems.append("translator selfcheck failed: " + (o + e)[-800:])
        # independent re-check of the compiled property modules (and their own sub-modules) with leanchecker
        sub = []
        for f in import_closure(mods):
            rel = os.path.relpath(f, LEAN)[:-5].replace(os.sep, ".")
            if any(rel == m or rel.startswith(m + ".") for m in mods):
                sub.append(rel)
        from concurrent.futures import ThreadPoolExecutor
        def lc(m):
            return m, run(["lake", "env", "leanchecker", m], cwd=LEAN, timeout=3600)
        with ThreadPoolExecutor(max_workers=4) as ex:
            for m, (rc, o, e, dt) in ex.map(lc, sorted(set(sub))):
                ctx.cov.setdefault("leanchecker", {})[m] = {"rc": rc, "wall_s": round(dt, 1)}
                if rc != 0:
                    problems.append("leanchecker rejected %s: %s" % (m, (o + e)[-500:]))
    return len(problems) == 0, problems


def corr_stage(ctx, spec, boost=False):
    """build drivers, generate requests, run, compare.  Returns (mismatches, infra_problems)."""
    tier = "thorough" if boost else ctx.tier
    cfgs = spec["cq"] if tier == "quick" else spec["ct"]
    if spec["legacy"]:
        cfgs = list(cfgs) + ["simd-legacy"]
    drivers, problems = {}, []
    for prof in spec["profiles"]:
        d, bad = build_drivers(cfgs, prof)
        for c, pth in d.items():
            drivers[c if prof == "release" else c + "@" + prof] = pth
        problems += ["driver %s (%s) failed to build: %s" % (c, prof, e[-800:]) for c, e in bad.items()]
    r = SplitMix64(ctx.seed).fork(ctx.pid)
    reqs = spec["req"](r, tier)
    # corpus first
    cdir = os.path.join(VERIF, "corpus", ctx.pid)
    corpus = []
    if os.path.isdir(cdir):
        for f in sorted(os.listdir(cdir)):
            for line in open(os.path.join(cdir, f)):
                line = line.strip()
                if line and not line.startswith("#"):
                    corpus.append(("corpus:" + f, line))
    reqs = corpus + reqs
    lines = [l for _, l in reqs]
    model_out = run_model(lines)
    model_legacy = run_model(lines, legacy=True) if spec["legacy"] else None
    outs = {}
    from concurrent.futures import ThreadPoolExecutor
    with ThreadPoolExecutor(max_workers=8) as ex:
        futs = {c: ex.submit(run_lines, p, lines) for c, p in drivers.items()}
        for c, f in futs.items():
            try:
                outs[c] = f.result()
            except Exception as e:
                problems.append("driver %s crashed: %r" % (c, e))
    if model_legacy is not None:
        leg = {c: o for c, o in outs.items() if "-legacy" in c}
        outs_n = {c: o for c, o in outs.items() if "-legacy" not in c}
        mism, evals = compare(reqs, outs_n, model_out)
        m2, e2 = compare(reqs, leg, model_legacy)
        mism += m2; evals += e2
    else:
        mism, evals = compare(reqs, outs, model_out)
    # statistics
    classes = {}
    nontriv = set()
    for i, (lab, line) in enumerate(reqs):
        kind = model_out[i].split(" ", 1)[0]
        if kind in ("skip",) or model_out[i].startswith("err badreq"):
            # the model cannot answer: count as not evaluated
            continue
        cl = lab.split(":")[0]
        classes[cl] = classes.get(cl, 0) + 1
        nontriv.add((lab, kind))
    badreq = sum(1 for o in model_out if o.startswith("err badreq"))
    ctx.cov["evaluations"] = ctx.cov.get("evaluations", 0) + evals
    ctx.cov["distinct_nontrivial"] = len(nontriv)
    ctx.cov["rule"] = ("class-directed generators (lib/props.py, lib/gen.py) seeded by VERIF_SEED through one SplitMix64 state; each request is run on "
                       "every listed driver build and on the Lean model and the response lines are compared; non-trivial+distinct = distinct (input class label, "
                       "response kind ok/none/err) pairs that the model answered (skip / badreq excluded)")
    ctx.cov["class_histogram"] = dict(sorted(classes.items()))
    ctx.cov["configs"] = sorted(outs)
    ctx.cov["requests"] = len(reqs)
    ctx.cov["model_badreq"] = badreq
    ctx.cov["samples"] = [{"request": lines[i][:300], "model": model_out[i][:200],
                           "drivers": {c: outs[c][i][:200] for c in list(outs)[:2]}} for i in range(0, len(lines), max(1, len(lines) // 6))][:8]
    return reqs, mism, problems


def report(ctx, violations):
    """violations: list of dicts with keys kind, detail, replay content"""
    rc = 0
    unknown = []
    for v in violations:
        k = known_match(ctx.pid, v.get("request", v.get("detail", "")), v.get("cfg"))
        if k:
            print("KNOWN-FINDING: property=%s %s" % (ctx.pid, k["what"]))
        else:
            unknown.append(v)
    if unknown:
        concrete = [v for v in unknown if v.get("request")]
        content = {"property": ctx.pid, "tier": ctx.tier, "seed": ctx.seed, "violations": unknown[:20]}
        path = write_replay(ctx.pid, content)
        suffix = "" if concrete else " no-failing-input-found"
        print("VIOLATION property=%s replay=%s%s" % (ctx.pid, path, suffix))
        rc = 1
    ctx.finish(violations=len(unknown))
    return rc


def run_check(ctx):
    spec = REGISTRY[ctx.pid]
    violations = []
    ok, problems = lean_stage(ctx, spec["lean"])
    for p in problems:
        log("LEAN:", p)
    reqs, mism, infra = corr_stage(ctx, spec, boost=not ok)
    for p in infra:
        log("INFRA:", p)
    seen = set()
    for (i, cfg, d, m) in sorted(mism, key=lambda t: len(reqs[t[0]][1])):
        key = (reqs[i][0].split(":")[0], cfg)
        if key in seen and len(violations) > 5:
            continue
        seen.add(key)
        violations.append({"kind": "correspondence", "class": reqs[i][0], "cfg": cfg, "request": reqs[i][1], "driver": d, "model": m})
        if len(violations) >= 20:
            break
    if spec.get("extra"):
        violations += spec["extra"](ctx)
    if not ok and ctx.pid in ("C12", "C17"):
        try:
            rep = run_model(["const.report"])[0]
            problems.append("failing constant checks / table entries (model op const.report over the regenerated literals): " + rep[:1500])
        except Exception as e:
            problems.append("const.report unavailable: %r" % (e,))
    if not ok and not violations:
        violations.append({"kind": "proof-or-translation-broken", "detail": "; ".join(problems)[:4000]})
    elif not ok:
        for v in violations:
            v["broken_obligations"] = problems[:10]
    if infra and not violations:
        violations.append({"kind": "infrastructure", "detail": "; ".join(infra)[:4000]})
    return report(ctx, violations)


def replay(ctx, path):
    content = json.load(open(path))
    spec = REGISTRY[ctx.pid]
    lines = [v["request"] for v in content.get("violations", []) if v.get("request")]
    if not lines:
        print("replay file names no concrete request:", json.dumps(content)[:2000])
        return 1
    cfgs = sorted({v.get("cfg") for v in content["violations"] if v.get("cfg")}) or spec["cq"]
    drivers = {}
    for c in cfgs:
        name, _, prof = c.partition("@")
        d, bad = build_drivers([name], prof or "release")
        if name in d:
            drivers[c] = d[name]
    lake_build(["dalek-model"])
    mo_plain = run_model(lines)
    mo_legacy = run_model(lines, legacy=True)
    rc = 0
    for c, p in drivers.items():
        do = run_lines(p, lines)
        mo = mo_legacy if "-legacy" in c else mo_plain
        for l, d, m in zip(lines, do, mo):
            if d != "skip" and not same(l.split(" ", 1)[0], d, m, l):
                print("DIFF cfg=%s\n  request: %s\n  driver:  %s\n  model:   %s" % (c, l[:400], d[:400], m[:400]))
                rc = 1
    print("replay:", "still failing" if rc else "no difference")
    return rc
